// instr: source instrumenter for the controlled scheduler (DESIGN.md §3.2).
// Reads Go files from the CURRENT /repo tree, rewrites sync / sync/atomic / channel operations / select / go
// statements into calls to verifrt, writes the rewritten copies to an output directory and prints a
// `go build -overlay` JSON fragment mapping original path -> rewritten copy.
//
// usage: instr [-stmt] -out DIR file.go...
package main

import (
	"bytes"
	"encoding/json"
	"flag"
	"fmt"
	"go/ast"
	"go/importer"
	"go/parser"
	"go/printer"
	"go/token"
	"go/types"
	"io"
	"os"
	"os/exec"
	"path/filepath"
	"reflect"
	"strconv"
	"strings"
)

const rtPath = "github.com/formancehq/stack/libs/go-libs/verifrt"

type rewriter struct {
	fset      *token.FileSet
	file      string
	usedRT    bool
	genRecv   map[*ast.CallExpr]bool // Recv()/RecvReal() calls generated from `<-x`
	selN      int
	stmtYield bool
	errs      []string
	info      *types.Info         // nil: purely syntactic mode
	mapRange  map[*ast.RangeStmt]bool
	chanRange map[*ast.RangeStmt]bool
	mapOnly   bool
}

func rt(name string) ast.Expr {
	return &ast.SelectorExpr{X: ast.NewIdent("verifrt"), Sel: ast.NewIdent(name)}
}

func call(fun ast.Expr, args ...ast.Expr) *ast.CallExpr { return &ast.CallExpr{Fun: fun, Args: args} }

func method(x ast.Expr, name string, args ...ast.Expr) *ast.CallExpr {
	return call(&ast.SelectorExpr{X: x, Sel: ast.NewIdent(name)}, args...)
}

func index(x ast.Expr, idx ast.Expr) ast.Expr { return &ast.IndexExpr{X: x, Index: idx} }

// isShimChanType recognises *verifrt.Chan[T] (already rewritten chan type) and returns T.
func isShimChanType(e ast.Expr) (ast.Expr, bool) {
	st, ok := e.(*ast.StarExpr)
	if !ok {
		return nil, false
	}
	ix, ok := st.X.(*ast.IndexExpr)
	if !ok {
		return nil, false
	}
	sel, ok := ix.X.(*ast.SelectorExpr)
	if !ok || sel.Sel.Name != "Chan" {
		return nil, false
	}
	if id, ok := sel.X.(*ast.Ident); !ok || id.Name != "verifrt" {
		return nil, false
	}
	return ix.Index, true
}

// isForeignChan: a receive operand that is a call expression (ctx.Done(), time.After(..)) is a real channel.
func isForeignChan(x ast.Expr) bool {
	for {
		p, ok := x.(*ast.ParenExpr)
		if !ok {
			break
		}
		x = p.X
	}
	c, ok := x.(*ast.CallExpr)
	if !ok {
		return false
	}
	// verifrt.MakeChan[T](..) is a shim channel
	if ix, ok := c.Fun.(*ast.IndexExpr); ok {
		if sel, ok := ix.X.(*ast.SelectorExpr); ok && sel.Sel.Name == "MakeChan" {
			return false
		}
	}
	return true
}

func (r *rewriter) expr(e ast.Expr) ast.Expr {
	if r.mapOnly {
		return e
	}
	switch x := e.(type) {
	case *ast.ChanType:
		r.usedRT = true
		return &ast.StarExpr{X: index(rt("Chan"), x.Value)}
	case *ast.CallExpr:
		if id, ok := x.Fun.(*ast.Ident); ok {
			switch id.Name {
			case "make":
				if len(x.Args) >= 1 {
					if elem, ok := isShimChanType(x.Args[0]); ok {
						r.usedRT = true
						return call(index(rt("MakeChan"), elem), x.Args[1:]...)
					}
				}
			case "close":
				if len(x.Args) == 1 {
					return method(x.Args[0], "Close")
				}
			}
		}
	case *ast.UnaryExpr:
		if x.Op == token.ARROW {
			r.usedRT = true
			var c *ast.CallExpr
			if isForeignChan(x.X) {
				c = call(rt("RecvReal"), x.X)
			} else {
				c = method(x.X, "Recv")
			}
			r.genRecv[c] = true
			return c
		}
	}
	return e
}

func (r *rewriter) recv2(c *ast.CallExpr) {
	switch f := c.Fun.(type) {
	case *ast.SelectorExpr:
		if f.Sel.Name == "Recv" {
			f.Sel = ast.NewIdent("Recv2")
		} else if f.Sel.Name == "RecvReal" {
			f.Sel = ast.NewIdent("RecvReal2")
		}
	}
}

func (r *rewriter) stmt(s ast.Stmt) ast.Stmt {
	if r.mapOnly {
		if x, ok := s.(*ast.RangeStmt); ok && r.mapRange[x] {
			return r.sortedRange(x)
		}
		return s
	}
	switch x := s.(type) {
	case *ast.SendStmt:
		r.usedRT = true
		return &ast.ExprStmt{X: method(x.Chan, "Send", x.Value)}
	case *ast.AssignStmt:
		if len(x.Lhs) == 2 && len(x.Rhs) == 1 {
			if c, ok := x.Rhs[0].(*ast.CallExpr); ok && r.genRecv[c] {
				r.recv2(c)
			}
		}
	case *ast.GoStmt:
		r.usedRT = true
		c := x.Call
		var pre []ast.Stmt
		if len(c.Args) > 0 {
			var lhs []ast.Expr
			var newArgs []ast.Expr
			for i := range c.Args {
				id := ast.NewIdent(fmt.Sprintf("verifrtGoArg%d", i))
				lhs = append(lhs, id)
				newArgs = append(newArgs, id)
			}
			pre = append(pre, &ast.AssignStmt{Lhs: lhs, Tok: token.DEFINE, Rhs: c.Args})
			c = &ast.CallExpr{Fun: c.Fun, Args: newArgs, Ellipsis: c.Ellipsis}
		}
		fn := &ast.FuncLit{Type: &ast.FuncType{Params: &ast.FieldList{}}, Body: &ast.BlockStmt{List: []ast.Stmt{&ast.ExprStmt{X: c}}}}
		goCall := &ast.ExprStmt{X: call(rt("Go"), fn)}
		if len(pre) == 0 {
			return goCall
		}
		return &ast.BlockStmt{List: append(pre, goCall)}
	case *ast.RangeStmt:
		// range over a map: iterate in sorted key order, so that Go's randomised map iteration is not an unowned source of nondeterminism
		if r.mapRange[x] {
			return r.sortedRange(x)
		}
		// range over a channel: for { v, ok := ch.Recv2(); if !ok { break }; body }
		if r.chanRange[x] {
			r.usedRT = true
			okID := ast.NewIdent("verifrtRangeOk")
			var key ast.Expr = ast.NewIdent("_")
			if x.Key != nil {
				key = x.Key
			}
			recv := method(x.X, "Recv2")
			var head []ast.Stmt
			if x.Tok == token.ASSIGN && x.Key != nil {
				head = append(head, &ast.DeclStmt{Decl: &ast.GenDecl{Tok: token.VAR, Specs: []ast.Spec{&ast.ValueSpec{Names: []*ast.Ident{okID}, Type: ast.NewIdent("bool")}}}},
					&ast.AssignStmt{Lhs: []ast.Expr{key, okID}, Tok: token.ASSIGN, Rhs: []ast.Expr{recv}})
			} else {
				head = append(head, &ast.AssignStmt{Lhs: []ast.Expr{key, okID}, Tok: token.DEFINE, Rhs: []ast.Expr{recv}})
			}
			head = append(head, &ast.IfStmt{Cond: &ast.UnaryExpr{Op: token.NOT, X: okID}, Body: &ast.BlockStmt{List: []ast.Stmt{&ast.BranchStmt{Tok: token.BREAK}}}})
			return &ast.ForStmt{Body: &ast.BlockStmt{List: append(head, x.Body.List...)}}
		}
	}
	return s
}

func (r *rewriter) sortedRange(x *ast.RangeStmt) ast.Stmt {
	if x.Tok != token.DEFINE && x.Key != nil {
		r.errs = append(r.errs, "range over a map with '=' is not supported")
		return x
	}
	r.usedRT = true
	r.selN++
	keyName := fmt.Sprintf("verifrtK%d", r.selN)
	mapName := fmt.Sprintf("verifrtM%d", r.selN)
	var key ast.Expr = ast.NewIdent(keyName)
	userKey := false
	if id, ok := x.Key.(*ast.Ident); ok && id.Name != "_" {
		key = ast.NewIdent(id.Name)
		userKey = true
	}
	var pre []ast.Stmt
	// v, ok := m[k]; if !ok { continue }
	valName := "_"
	if id, ok := x.Value.(*ast.Ident); ok && id.Name != "_" {
		valName = id.Name
	}
	okName := fmt.Sprintf("verifrtOk%d", r.selN)
	pre = append(pre, &ast.AssignStmt{Lhs: []ast.Expr{ast.NewIdent(valName), ast.NewIdent(okName)}, Tok: token.DEFINE, Rhs: []ast.Expr{&ast.IndexExpr{X: ast.NewIdent(mapName), Index: key}}})
	pre = append(pre, &ast.IfStmt{Cond: &ast.UnaryExpr{Op: token.NOT, X: ast.NewIdent(okName)}, Body: &ast.BlockStmt{List: []ast.Stmt{&ast.BranchStmt{Tok: token.CONTINUE}}}})
	if valName != "_" {
		pre = append(pre, &ast.AssignStmt{Lhs: []ast.Expr{ast.NewIdent("_")}, Tok: token.ASSIGN, Rhs: []ast.Expr{ast.NewIdent(valName)}})
	}
	if userKey {
		pre = append(pre, &ast.AssignStmt{Lhs: []ast.Expr{ast.NewIdent("_")}, Tok: token.ASSIGN, Rhs: []ast.Expr{key}})
	}
	loop := &ast.RangeStmt{Key: ast.NewIdent("_"), Value: key, Tok: token.DEFINE, X: call(rt("SortedKeys"), ast.NewIdent(mapName)), Body: &ast.BlockStmt{List: append(pre, x.Body.List...)}}
	return &ast.BlockStmt{List: []ast.Stmt{
		&ast.AssignStmt{Lhs: []ast.Expr{ast.NewIdent(mapName)}, Tok: token.DEFINE, Rhs: []ast.Expr{x.X}},
		loop,
	}}
}

// selectStmt rewrites a select (pre-order: its comm clauses are taken apart before the generic rewrites see them).
func (r *rewriter) selectStmt(s *ast.SelectStmt, label *ast.Ident) ast.Stmt {
	r.usedRT = true
	r.selN++
	selName := fmt.Sprintf("verifrtSel%d", r.selN)
	sel := ast.NewIdent(selName)
	var setup []ast.Stmt
	setup = append(setup, &ast.AssignStmt{Lhs: []ast.Expr{sel}, Tok: token.DEFINE, Rhs: []ast.Expr{call(rt("NewSelect"))}})
	sw := &ast.SwitchStmt{Tag: method(sel, "Wait"), Body: &ast.BlockStmt{}}
	n := 0
	var defaultBody []ast.Stmt
	hasDefault := false
	for _, cl := range s.Body.List {
		cc := cl.(*ast.CommClause)
		body := r.stmts(cc.Body)
		if cc.Comm == nil {
			hasDefault = true
			defaultBody = body
			continue
		}
		idx := n
		n++
		var first []ast.Stmt
		recvCase := func(u *ast.UnaryExpr) *ast.Ident {
			ch := r.node(u.X).(ast.Expr)
			h := ast.NewIdent(fmt.Sprintf("%sH%d", selName, idx))
			fn := "CaseRecv"
			if isForeignChan(u.X) {
				fn = "CaseRecvReal"
			}
			setup = append(setup, &ast.AssignStmt{Lhs: []ast.Expr{h}, Tok: token.DEFINE, Rhs: []ast.Expr{call(rt(fn), sel, ch)}})
			setup = append(setup, &ast.AssignStmt{Lhs: []ast.Expr{ast.NewIdent("_")}, Tok: token.ASSIGN, Rhs: []ast.Expr{h}})
			return h
		}
		switch c := cc.Comm.(type) {
		case *ast.SendStmt:
			ch := r.node(c.Chan).(ast.Expr)
			v := r.node(c.Value).(ast.Expr)
			setup = append(setup, &ast.ExprStmt{X: call(rt("CaseSend"), sel, ch, v)})
		case *ast.ExprStmt:
			u, ok := unparen(c.X).(*ast.UnaryExpr)
			if !ok || u.Op != token.ARROW {
				r.errs = append(r.errs, "unsupported select case")
				continue
			}
			recvCase(u)
		case *ast.AssignStmt:
			u, ok := unparen(c.Rhs[0]).(*ast.UnaryExpr)
			if !ok || u.Op != token.ARROW {
				r.errs = append(r.errs, "unsupported select case")
				continue
			}
			h := recvCase(u)
			var lhs []ast.Expr
			for _, l := range c.Lhs {
				lhs = append(lhs, r.node(l).(ast.Expr))
			}
			m := "Value"
			if len(lhs) == 2 {
				m = "Value2"
			}
			first = append(first, &ast.AssignStmt{Lhs: lhs, Tok: c.Tok, Rhs: []ast.Expr{method(h, m)}})
			if c.Tok == token.DEFINE {
				// avoid "declared and not used" when the body ignores a variable
				for _, l := range lhs {
					if id, ok := l.(*ast.Ident); ok && id.Name != "_" {
						first = append(first, &ast.AssignStmt{Lhs: []ast.Expr{ast.NewIdent("_")}, Tok: token.ASSIGN, Rhs: []ast.Expr{ast.NewIdent(id.Name)}})
					}
				}
			}
		}
		sw.Body.List = append(sw.Body.List, &ast.CaseClause{List: []ast.Expr{&ast.BasicLit{Kind: token.INT, Value: strconv.Itoa(idx)}}, Body: append(first, body...)})
	}
	if hasDefault {
		setup = append(setup, &ast.ExprStmt{X: method(sel, "Default")})
		sw.Body.List = append(sw.Body.List, &ast.CaseClause{List: []ast.Expr{&ast.BasicLit{Kind: token.INT, Value: strconv.Itoa(n)}}, Body: defaultBody})
	}
	// a select whose cases all return is a terminating statement; keep the switch terminating too
	sw.Body.List = append(sw.Body.List, &ast.CaseClause{List: nil, Body: []ast.Stmt{&ast.ExprStmt{X: call(ast.NewIdent("panic"), &ast.BasicLit{Kind: token.STRING, Value: strconv.Quote("verifrt: select resumed without a case (thread torn down)")})}}})
	var swStmt ast.Stmt = sw
	if label != nil {
		swStmt = &ast.LabeledStmt{Label: label, Stmt: sw}
	}
	return &ast.BlockStmt{List: append(setup, swStmt)}
}

func unparen(e ast.Expr) ast.Expr {
	for {
		p, ok := e.(*ast.ParenExpr)
		if !ok {
			return e
		}
		e = p.X
	}
}

func (r *rewriter) stmts(l []ast.Stmt) []ast.Stmt {
	out := make([]ast.Stmt, 0, len(l))
	for _, s := range l {
		ns := r.node(s).(ast.Stmt)
		if r.stmtYield {
			pos := r.fset.Position(s.Pos())
			if _, isDecl := s.(*ast.DeclStmt); !isDecl {
				if _, isLabeled := s.(*ast.LabeledStmt); !isLabeled {
					r.usedRT = true
					out = append(out, &ast.ExprStmt{X: call(rt("Yield"), &ast.BasicLit{Kind: token.STRING, Value: strconv.Quote(fmt.Sprintf("%s:%d", filepath.Base(pos.Filename), pos.Line))})})
				}
			}
		}
		out = append(out, ns)
	}
	return out
}

var (
	exprType = reflect.TypeOf((*ast.Expr)(nil)).Elem()
	stmtType = reflect.TypeOf((*ast.Stmt)(nil)).Elem()
	nodeType = reflect.TypeOf((*ast.Node)(nil)).Elem()
)

// node rewrites n bottom-up (reflective walk over the AST struct fields) and returns its replacement.
func (r *rewriter) node(n ast.Node) ast.Node {
	if n == nil || reflect.ValueOf(n).IsNil() {
		return n
	}
	switch x := n.(type) {
	case *ast.RangeStmt:
		if r.info != nil {
			if tv, ok := r.info.Types[x.X]; ok && tv.Type != nil {
				if _, isMap := tv.Type.Underlying().(*types.Map); isMap {
					r.mapRange[x] = true
				}
				if _, isChan := tv.Type.Underlying().(*types.Chan); isChan {
					r.chanRange[x] = true
				}
			}
		}
	case *ast.SelectStmt:
		if !r.mapOnly {
			return r.selectStmt(x, nil)
		}
	case *ast.LabeledStmt:
		if s, ok := x.Stmt.(*ast.SelectStmt); ok && !r.mapOnly {
			return r.selectStmt(s, x.Label)
		}
	case *ast.BlockStmt:
		x.List = r.stmts(x.List)
		return x
	case *ast.SwitchStmt:
		if x.Init != nil {
			x.Init = r.node(x.Init).(ast.Stmt)
		}
		if x.Tag != nil {
			x.Tag = r.node(x.Tag).(ast.Expr)
		}
		for i := range x.Body.List {
			x.Body.List[i] = r.node(x.Body.List[i]).(ast.Stmt)
		}
		return x
	case *ast.TypeSwitchStmt:
		if x.Init != nil {
			x.Init = r.node(x.Init).(ast.Stmt)
		}
		x.Assign = r.node(x.Assign).(ast.Stmt)
		for i := range x.Body.List {
			x.Body.List[i] = r.node(x.Body.List[i]).(ast.Stmt)
		}
		return x
	case *ast.CaseClause:
		for i := range x.List {
			x.List[i] = r.node(x.List[i]).(ast.Expr)
		}
		x.Body = r.stmts(x.Body)
		return x
	case *ast.Ident, *ast.BasicLit, *ast.CommentGroup, *ast.Comment:
		return n
	}
	v := reflect.ValueOf(n).Elem()
	for i := 0; i < v.NumField(); i++ {
		f := v.Field(i)
		if !f.CanSet() {
			continue
		}
		switch f.Kind() {
		case reflect.Interface, reflect.Ptr:
			if f.IsNil() {
				continue
			}
			if sub, ok := f.Interface().(ast.Node); ok {
				if _, isObj := f.Interface().(*ast.Object); isObj {
					continue
				}
				nn := r.node(sub)
				f.Set(reflect.ValueOf(nn))
			}
		case reflect.Slice:
			for j := 0; j < f.Len(); j++ {
				e := f.Index(j)
				if e.Kind() != reflect.Interface && e.Kind() != reflect.Ptr {
					break
				}
				if e.IsNil() {
					continue
				}
				if sub, ok := e.Interface().(ast.Node); ok {
					nn := r.node(sub)
					e.Set(reflect.ValueOf(nn))
				}
			}
		}
	}
	if e, ok := n.(ast.Expr); ok {
		return r.expr(e)
	}
	if s, ok := n.(ast.Stmt); ok {
		return r.stmt(s)
	}
	return n
}

func instrument(fset *token.FileSet, path string, stmtYield, mapOnly bool, f *ast.File, info *types.Info) ([]byte, error) {
	syncShims := !mapOnly
	if f == nil {
		var err error
		f, err = parser.ParseFile(fset, path, nil, parser.ParseComments)
		if err != nil {
			return nil, err
		}
	}
	for _, cg := range f.Comments {
		for _, c := range cg.List {
			if strings.HasPrefix(c.Text, "//go:build") || strings.HasPrefix(c.Text, "// +build") {
				return nil, fmt.Errorf("%s carries a build constraint; not supported by the instrumenter", path)
			}
		}
	}
	f.Comments = nil
	f.Doc = nil
	r := &rewriter{fset: fset, file: path, genRecv: map[*ast.CallExpr]bool{}, stmtYield: stmtYield, info: info, mapRange: map[*ast.RangeStmt]bool{}, chanRange: map[*ast.RangeStmt]bool{}, mapOnly: mapOnly}
	// imports: sync -> vsync, sync/atomic -> vatomic
	for _, im := range f.Imports {
		if !syncShims {
			break
		}
		p, _ := strconv.Unquote(im.Path.Value)
		switch p {
		case "sync":
			if im.Name == nil {
				im.Name = ast.NewIdent("sync")
			}
			im.Path.Value = strconv.Quote(rtPath + "/vsync")
		case "sync/atomic":
			if im.Name == nil {
				im.Name = ast.NewIdent("atomic")
			}
			im.Path.Value = strconv.Quote(rtPath + "/vatomic")
		}
	}
	for i, d := range f.Decls {
		if gd, ok := d.(*ast.GenDecl); ok {
			gd.Doc = nil
		}
		if fd, ok := d.(*ast.FuncDecl); ok {
			fd.Doc = nil
		}
		f.Decls[i] = r.node(d).(ast.Decl)
	}
	if len(r.errs) > 0 {
		return nil, fmt.Errorf("%s: %s", path, strings.Join(r.errs, "; "))
	}
	if r.usedRT {
		spec := &ast.ImportSpec{Name: ast.NewIdent("verifrt"), Path: &ast.BasicLit{Kind: token.STRING, Value: strconv.Quote(rtPath)}}
		placed := false
		for _, d := range f.Decls {
			if gd, ok := d.(*ast.GenDecl); ok && gd.Tok == token.IMPORT {
				gd.Specs = append(gd.Specs, spec)
				if gd.Lparen == token.NoPos {
					gd.Lparen = gd.Pos()
					gd.Rparen = gd.End()
				}
				placed = true
				break
			}
		}
		if !placed {
			f.Decls = append([]ast.Decl{&ast.GenDecl{Tok: token.IMPORT, Specs: []ast.Spec{spec}}}, f.Decls...)
		}
	}
	var buf bytes.Buffer
	cfg := printer.Config{Mode: printer.RawFormat}
	if err := cfg.Fprint(&buf, token.NewFileSet(), f); err != nil {
		return nil, err
	}
	return buf.Bytes(), nil
}

// exportLookup builds an importer over the export data `go list -export` produces for the packages' dependencies.
func exportLookup(moduleDir string, pkgs []string) (types.Importer, *token.FileSet, error) {
	args := append([]string{"list", "-export", "-deps", "-f", "{{.ImportPath}}\t{{.Export}}"}, pkgs...)
	cmd := exec.Command("go", args...)
	cmd.Dir = moduleDir
	cmd.Env = append(os.Environ(), "GOFLAGS=-mod=mod")
	var stderr bytes.Buffer
	cmd.Stderr = &stderr
	out, err := cmd.Output()
	if err != nil {
		return nil, nil, fmt.Errorf("go list -export: %v: %s", err, stderr.String())
	}
	exports := map[string]string{}
	for _, line := range strings.Split(string(out), "\n") {
		f := strings.Split(line, "\t")
		if len(f) == 2 && f[1] != "" {
			exports[f[0]] = f[1]
		}
	}
	fset := token.NewFileSet()
	lookup := func(path string) (io.ReadCloser, error) {
		e, ok := exports[path]
		if !ok {
			return nil, fmt.Errorf("no export data for %s", path)
		}
		return os.Open(e)
	}
	return importer.ForCompiler(fset, "gc", lookup), fset, nil
}

// typeCheckDir parses and type-checks the package in dir (non-test files); returns the parsed files by path.
func typeCheckDir(fset *token.FileSet, imp types.Importer, dir string) (map[string]*ast.File, *types.Info, error) {
	ents, err := os.ReadDir(dir)
	if err != nil {
		return nil, nil, err
	}
	files := map[string]*ast.File{}
	var list []*ast.File
	for _, e := range ents {
		n := e.Name()
		if !strings.HasSuffix(n, ".go") || strings.HasSuffix(n, "_test.go") {
			continue
		}
		p := filepath.Join(dir, n)
		f, err := parser.ParseFile(fset, p, nil, parser.ParseComments)
		if err != nil {
			return nil, nil, err
		}
		files[p] = f
		list = append(list, f)
	}
	info := &types.Info{Types: map[ast.Expr]types.TypeAndValue{}}
	conf := types.Config{Importer: imp, Error: func(error) {}}
	if _, err := conf.Check(dir, fset, list, info); err != nil {
		// keep going with partial information: untyped ranges simply stay as they are
		fmt.Fprintln(os.Stderr, "instr: type check of", dir, "reported:", err)
	}
	return files, info, nil
}

func main() {
	out := flag.String("out", "", "output directory")
	stmt := flag.Bool("stmt", false, "insert a yield before every statement")
	flag.Parse()
	if *out == "" {
		fmt.Fprintln(os.Stderr, "usage: instr [-stmt] -out DIR file.go...")
		os.Exit(2)
	}
	overlay := map[string]string{}
	// files prefixed with "maponly:" get only the sorted-map-range rewrite (no sync/channel shims, no yields)
	type target struct {
		path    string
		mapOnly bool
	}
	var targets []target
	dirs := map[string]bool{}
	var pkgs []string
	for _, a := range flag.Args() {
		t := target{path: a}
		if strings.HasPrefix(a, "maponly:") {
			t = target{path: strings.TrimPrefix(a, "maponly:"), mapOnly: true}
		}
		targets = append(targets, t)
		d := filepath.Dir(t.path)
		if strings.HasPrefix(d, "/repo/internal/") && !dirs[d] {
			dirs[d] = true
			pkgs = append(pkgs, "./"+strings.TrimPrefix(d, "/repo/"))
		}
	}
	var imp types.Importer
	fset := token.NewFileSet()
	if len(pkgs) > 0 {
		var err error
		imp, fset, err = exportLookup("/repo", pkgs)
		if err != nil {
			fmt.Fprintln(os.Stderr, "instr:", err)
			os.Exit(1)
		}
	}
	parsed := map[string]*ast.File{}
	infos := map[string]*types.Info{}
	for d := range dirs {
		files, info, err := typeCheckDir(fset, imp, d)
		if err != nil {
			fmt.Fprintln(os.Stderr, "instr:", err)
			os.Exit(1)
		}
		for p, f := range files {
			parsed[p] = f
			infos[p] = info
		}
	}
	for _, t := range targets {
		path := t.path
		src, err := instrument(fset, path, *stmt && !t.mapOnly, t.mapOnly, parsed[path], infos[path])
		if err != nil {
			fmt.Fprintln(os.Stderr, "instr:", err)
			os.Exit(1)
		}
		dst := filepath.Join(*out, strings.ReplaceAll(strings.TrimPrefix(path, "/"), "/", "__"))
		if err := os.MkdirAll(*out, 0o755); err != nil {
			fmt.Fprintln(os.Stderr, err)
			os.Exit(1)
		}
		if err := os.WriteFile(dst, src, 0o644); err != nil {
			fmt.Fprintln(os.Stderr, err)
			os.Exit(1)
		}
		overlay[path] = dst
	}
	b, _ := json.MarshalIndent(overlay, "", " ")
	fmt.Println(string(b))
}
