#!/usr/bin/env python3
# regenerates MANIFEST.json from the table below (kept in one place so claims and not_applicable stay consistent)
import json
props=[json.loads(l) for l in open('/verif/properties.jsonl')]
NS_NOTE='Reference semantics (DESIGN.md Appendix A) is trusted; programs outside the bounded grammar (deeper nesting, >2 interacting statements, >3 accounts) are not covered.'
claimed={
 'C01':dict(engine='nsgen',level='exploration',technique='bounded-exhaustive enumeration of Numscript programs x inputs on the real compiler+VM; in-order balance-floor replay oracle + reference semantics (one direction)',design='§7-C01, §4, Appendix A',
   text='Every program of a bounded Numscript grammar (union of component products, ~3e5 programs quick) x every variable binding x every balance table is compiled and run on the real VM; accepted postings are replayed in order against the balances served and must never take an account below -(granted overdraft); an uncovered send (per the reference semantics) must be rejected with an insufficient-funds error and no postings.',
   note=NS_NOTE),
 'C03':dict(engine='nsgen',level='exploration',technique='bounded-exhaustive enumeration of send shapes x inputs; per-send invariants (conservation, caps, floor+leftover shares, ordered draining) + equality with reference semantics',design='§7-C03',
   text='Same program space as C01; postings are attributed to each send by running statement prefixes; per accepted send: no negative posting, amount conservation (exact / <= with kept / everything for [A *]), max never exceeded, exact floor+leftover shares for portions, ordered sources drained in order, and the group equals the reference semantics in normal form.',
   note=NS_NOTE+' Normal form drops zero postings and merges adjacent identical legs.'),
 'C08':dict(engine='nsgen',level='exploration',technique='bounded-exhaustive differential check of compiler+VM against a reference big-step semantics; ill-typed variants; exhaustive cache sequences and phase interleavings of two machines on one cached program',design='§7-C08',
   text='For every program x input of the bounded space: outcome class, normal-form postings, tx metadata and account metadata equal the reference semantics; every ill-typed single-slot variant is refused; every sequence <=4 over script triples through command.Compiler with cache sizes 1..3 equals a fresh compile; all 252 interleavings of the 5 public phases of two machines sharing one cached program equal their solo runs.',
   note=NS_NOTE+' One documented ambiguity (capped destination after kept) accepted either way and counted.'),
 'C09':dict(engine='postings',level='exploration',technique='exhaustive enumeration of posting lists x starting balances on the real Commander (and v1/v2 HTTP handlers); sequential-replay oracle',design='§7-C09',
   text='Every posting list of length <=2 over {a,b,world} x {X,Y/2} x {0,1,5,2^70} and every length-3 list over a reduced alphabet, x starting balances, submitted through Commander.CreateTransaction and the v1/v2 handlers on a real Commander over an in-memory store with the real store contract: accepted iff a sequential replay covers every posting; the returned and the persisted transaction carry exactly the requested postings, metadata, reference, timestamp; a rejected request leaves nothing.',
   note='memstore stands in for PostgreSQL (atomic InsertLogs, reads = fold of persisted logs); one request at a time, so no schedule to own.'),
 'C12':dict(engine='nsgen',level='exploration',technique='exhaustive enumeration of byte strings / token strings up to a length bound and of a bounded grammar incl. meaningless programs x variable maps x stores; no-panic, termination watchdog and run-twice-in-reverse-order determinism oracle',design='§7-C12',
   text='All byte strings <=3 (thorough 4) over 27 bytes, all token strings <=3 (4) over 48 token representatives, the whole bounded grammar plus enumerated meaningless-but-grammatical programs x valid/missing/extraneous/ill-typed variable maps x four stores: every phase returns (no panic), and every case gives the same observation when re-run in reverse order on a fresh compile.',
   note='Termination is a 180 s watchdog per case; the VM has no backward jumps. Error texts are not compared (map-order dependent wording of equally valid compile errors).'),
 'C13':dict(engine='logshapes',level='model_checking',technique='explicit-state BFS over hash chains of log entries (all sequences up to a length bound) + exhaustive product of log shapes; round-trip and re-hash oracle on the real codec',design='§7-C13',
   text='Every log type x target type x date x timestamp x amount x metadata x key shape (2592 shapes) as first and as second chain entry, and BFS over all chains <=3 (thorough 4) over a 12-shape alphabet: the stored JSON form and the store-row form read back to the same JSON, and ChainLog(prev) of the round-tripped content reproduces the stored hash and id.',
   note='PostgreSQL jsonb/timestamptz storage modelled as identity on JSON text and microsecond UTC instants.'),
 'C14':dict(engine='dryrun',level='model_checking',technique='exhaustive exploration of operation histories (BFS over sequences up to a depth) on the real Commander with a preview inserted at every position; twin-run differential oracle',design='§7-C14',
   text='Every history of length <=3 (thorough 4) over 9 write kinds + restart; a dry-run of every write kind (with/without idempotency key) inserted at every position; three engines per case (with preview / without / write made for real): the preview adds no log entry and no event, answers what the real write answers, and store contents, responses and events of everything after are identical to the history without it; chain re-verified.',
   note='Sequential histories only (concurrent previews are covered by the scheduler checks); dates and hashes erased before comparison.'),
 'C18':dict(engine='bulk',level='exploration',technique='exhaustive enumeration of bulk element sequences x flags on the real ProcessBulk / HTTP handler over a real Commander; twin sequential engine oracle',design='§7-C18',
   text='Every sequence of length <=3 (thorough 4) over 10 element kinds (incl. unknown action, malformed data) x continueOnFailure x idempotency-key mode x entry point: backend calls are exactly the processed elements in order, one result per processed element at its position with the predicted success/failure, nothing executed after the first failure unless continueOnFailure, failure signalled iff an element failed.',
   note='An element that cannot be executed counts as failing; three readings of how such an element stops the request are accepted (see DESIGN.md).'),
 'C19':dict(engine='httpenum',level='exploration',technique='exhaustive enumeration of registered routes x methods x headers x bodies x path variants against the real router with a recording backend',design='§7-C19',
   text='Every route pattern registered by api.NewRouter (chi.Walk) x ledger names x path variants x 12 methods x header sets (method-override headers, idempotency key) x bodies (transaction, bulk with every action, metadata, script) x query strings, sent to a read-only router over a recording backend: zero calls to the four write methods; the same request set reaches all four when not read-only (non-vacuity).',
   note='httptest delivery (no proxy in front); no-op auth.'),
}
order=[p['id'] for p in props]
checks=[]
for pid in order:
    if pid not in claimed: continue
    c=claimed[pid]
    checks.append({
      "property_id":pid,
      "quick_cmd":f"./check {pid} quick",
      "thorough_cmd":f"./check {pid} thorough",
      "evidence_file":f"/verif/evidence/{pid}.json",
      "replay_cmd_template":"./check replay {path}",
      "engine":c['engine'],
      "level_claimed":{"category":c['level'],"text":c['text'],"design_ref":c['design']},
      "level_note":c['note'],
      "technique":c['technique'],
    })
NA_REASONS={}
na=[{"property_id":p,"reason":NA_REASONS.get(p,"check not built yet in this session (work in progress; see DESIGN.md §11 build order)")} for p in order if p not in claimed]
m={"version":1,"setup_cmd":"./setup.sh",
 "hooks":{"guard":"verif","enable":"no source hooks in /repo: instrumentation is injected at build time with go build -overlay (generated from the current /repo files by /verif/engine/instr; added files carry //go:build verif)","baseline_off_cmd":json.load(open('/root/.vp/BASELINE.json'))['cmd'],"source_commits":[],"add_only":True},
 "engines":[
  {"name":"nsgen","path":"/verif/xverif/lib/nsgen","serves_properties":["C01","C03","C08","C12"],"kind_free_text":"bounded-exhaustive Numscript program/input enumerator + reference semantics, run against the real compiler and VM"},
  {"name":"vcheck","path":"/verif/xverif/cmd/vcheck","serves_properties":["C09","C13","C14","C18","C19"],"kind_free_text":"small exhaustive enumerators driving the real Commander / routers / codecs (memstore, recording backend)"},
 ],
 "checks":checks,"not_applicable":na,
 "notes":"See DESIGN.md. All deciding steps are complete enumerations of explicitly bounded spaces run on the repository's code rebuilt from /repo's working tree. Genuine defects found are repaired by 'fix:' commits in /repo and listed as fixed in known_findings.json."}
json.dump(m,open('/verif/MANIFEST.json','w'),indent=1)
print('claimed',len(checks),'na',len(na))
