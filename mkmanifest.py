#!/usr/bin/env python3
# regenerates MANIFEST.json from the table below (kept in one place so claims and not_applicable stay consistent)
import json
props=[json.loads(l) for l in open('/verif/properties.jsonl')]
NS_NOTE='Reference semantics (DESIGN.md Appendix A) is trusted; programs outside the bounded grammar (deeper nesting, >2 interacting statements, >3 accounts) are not covered.'
claimed={
 'C01':dict(engine='nsgen',level='exploration',technique='bounded-exhaustive enumeration of Numscript programs x inputs on the real compiler+VM; in-order balance-floor replay oracle + reference semantics (one direction)',design='§7-C01, §4, Appendix A',
   text='Every program of a bounded Numscript grammar (union of component products, ~3e5 programs quick) x every variable binding x every balance table is compiled and run on the real VM; accepted postings are replayed in order against the balances served and must never take an account below -(granted overdraft); an uncovered send (per the reference semantics) must be rejected with an insufficient-funds error and no postings.',
   note=NS_NOTE),
 'C03':dict(engine='nsgen',level='exploration',technique='bounded-exhaustive enumeration of send shapes x inputs; per-send invariants (conservation, caps, floor+leftover shares, ordered draining) + equality with reference semantics',design='§7-C03',
   text='Same program space as C01; postings are attributed to each send by running statement prefixes; per accepted send: no negative posting, amount conservation (exact / <= with kept / everything for [A *]), max never exceeded, exact floor+leftover shares for portions, ordered sources drained in order, and the group equals the reference semantics in normal form.',
   note=NS_NOTE+' Normal form drops zero postings and merges adjacent identical legs.'),
 'C08':dict(engine='nsgen',level='exploration',technique='bounded-exhaustive differential check of compiler+VM against a reference big-step semantics; ill-typed variants; exhaustive cache sequences and phase interleavings of two machines on one cached program',design='§7-C08',
   text='For every program x input of the bounded space: outcome class, normal-form postings, tx metadata and account metadata equal the reference semantics; every ill-typed single-slot variant is refused; every sequence <=4 over script triples through command.Compiler with cache sizes 1..3 equals a fresh compile; all 252 interleavings of the 5 public phases of two machines sharing one cached program equal their solo runs.',
   note=NS_NOTE+' One documented ambiguity (capped destination after kept) accepted either way and counted.'),
 'C09':dict(engine='postings',level='exploration',technique='exhaustive enumeration of posting lists x starting balances on the real Commander (and v1/v2 HTTP handlers); sequential-replay oracle',design='§7-C09',
   text='Every posting list of length <=2 over {a,b,world} x {X,Y/2} x {0,1,5,2^70} and every length-3 list over a reduced alphabet, x starting balances, submitted through Commander.CreateTransaction and the v1/v2 handlers on a real Commander over an in-memory store with the real store contract: accepted iff a sequential replay covers every posting; the returned and the persisted transaction carry exactly the requested postings, metadata, reference, timestamp; a rejected request leaves nothing.',
   note='memstore stands in for PostgreSQL (atomic InsertLogs, reads = fold of persisted logs); one request at a time, so no schedule to own.'),
 'C12':dict(engine='nsgen',level='exploration',technique='exhaustive enumeration of byte strings / token strings up to a length bound and of a bounded grammar incl. meaningless programs x variable maps x stores; no-panic, termination watchdog and run-twice-in-reverse-order determinism oracle',design='§7-C12',
   text='All byte strings <=3 (thorough 4) over 27 bytes, all token strings <=3 (4) over 48 token representatives, the whole bounded grammar plus enumerated meaningless-but-grammatical programs x valid/missing/extraneous/ill-typed variable maps x four stores: every phase returns (no panic), and every case gives the same observation when re-run in reverse order on a fresh compile.',
   note='Termination is a 180 s watchdog per case; the VM has no backward jumps. Error texts are not compared (map-order dependent wording of equally valid compile errors).'),
 'C13':dict(engine='logshapes',level='model_checking',technique='explicit-state BFS over hash chains of log entries (all sequences up to a length bound) + exhaustive product of log shapes; round-trip and re-hash oracle on the real codec',design='§7-C13',
   text='Every log type x target type x date x timestamp x amount x metadata x key shape (2592 shapes) as first and as second chain entry, and BFS over all chains <=3 (thorough 4) over a 12-shape alphabet: the stored JSON form and the store-row form read back to the same JSON, and ChainLog(prev) of the round-tripped content reproduces the stored hash and id.',
   note='PostgreSQL jsonb/timestamptz storage modelled as identity on JSON text and microsecond UTC instants.'),
 'C14':dict(engine='dryrun',level='model_checking',technique='exhaustive exploration of operation histories (BFS over sequences up to a depth) on the real Commander with a preview inserted at every position; twin-run differential oracle',design='§7-C14',
   text='Every history of length <=3 (thorough 4) over 9 write kinds + restart; a dry-run of every write kind (with/without idempotency key) inserted at every position; three engines per case (with preview / without / write made for real): the preview adds no log entry and no event, answers what the real write answers, and store contents, responses and events of everything after are identical to the history without it; chain re-verified.',
   note='Sequential histories only (concurrent previews are covered by the scheduler checks); dates and hashes erased before comparison.'),
 'C18':dict(engine='bulk',level='exploration',technique='exhaustive enumeration of bulk element sequences x flags on the real ProcessBulk / HTTP handler over a real Commander; twin sequential engine oracle',design='§7-C18',
   text='Every sequence of length <=3 (thorough 4) over 10 element kinds (incl. unknown action, malformed data) x continueOnFailure x idempotency-key mode x entry point: backend calls are exactly the processed elements in order, one result per processed element at its position with the predicted success/failure, nothing executed after the first failure unless continueOnFailure, failure signalled iff an element failed.',
   note='An element that cannot be executed counts as failing; three readings of how such an element stops the request are accepted (see DESIGN.md).'),
 'C19':dict(engine='httpenum',level='exploration',technique='exhaustive enumeration of registered routes x methods x headers x bodies x path variants against the real router with a recording backend',design='§7-C19',
   text='Every route pattern registered by api.NewRouter (chi.Walk) x ledger names x path variants x 12 methods x header sets (method-override headers, idempotency key) x bodies (transaction, bulk with every action, metadata, script) x query strings, sent to a read-only router over a recording backend: zero calls to the four write methods; the same request set reaches all four when not read-only (non-vacuity).',
   note='httptest delivery (no proxy in front); no-op auth.'),
}

E1_NOTE='Instrumented packages (command, batching, job, collectionutils linked list; vm map iteration fixed to sorted order) communicate only through shim objects and harness points; pond replaced by a spawn-per-submit stand-in; memstore.InsertLogs atomic (the real one is one SQL transaction); verdict holds for the listed scenarios (2-3 request threads), up to the stated number of deviations from the default schedule.'
E1_TECH='stateless model checking of the implementation: the real concurrent core is rebuilt with sync/atomic/channel/select/go operations routed to a controlled scheduler; exhaustive DFS by prefix replay over all schedules (and crash / store-fault points) within a deviation bound'
claimed.update({
 'C02':dict(engine='gosched',level='model_checking',technique=E1_TECH+'; log-order serialisability oracle',design='§7-C02, §3',
   text='11 scenarios of 2-3 racing create/revert requests on shared funds (source named literally, by variable, by meta(), posting mode; reverts; declared overdraft; chains; disjoint control) on the real Commander+locker+batcher under the controlled scheduler; every schedule within 3 deviations (quick; 4 thorough): the persisted log replayed in order never takes a source below what its request declared, and every acknowledged request is in the log.',
   note=E1_NOTE),
 'C05':dict(engine='gosched',level='model_checking',technique=E1_TECH+' incl. a crash at every scheduling point followed by restart and more writes; recomputed hash-chain oracle',design='§7-C05',
   text='Concurrent create/revert/metadata writers, with and without a crash at any scheduling point followed by re-initialisation from the store and further writes: in every schedule within the bound the persisted log has ids 0,1,2.. in insertion order, each hash recomputed from predecessor+content matches, and transaction ids increase by one in log order.',
   note=E1_NOTE),
 'C06':dict(engine='gosched',level='model_checking',technique=E1_TECH+' with InsertLogs / read fault injection and crash points; ack-implies-persisted and rows<->requests bijection oracle',design='§7-C06',
   text='Concurrent writes with injected InsertLogs failures, read failures and crashes at every point: a request that returns success already has its (single) log entry persisted with the returned content at the instant it returns; requests that return an error have none; no entry exists that no request produced.',
   note=E1_NOTE),
 'C07':dict(engine='gosched',level='model_checking',technique=E1_TECH+' incl. crash-and-retry; at-most-one-effect-per-key oracle',design='§7-C07',
   text='2-3 duplicates of one idempotency key for every write kind (create, revert, set metadata, delete metadata), concurrent, sequentialised by the scheduler, and retried after a crash at any point: writes carrying one key take effect at most once and every success returns that effect (transaction id, postings).',
   note=E1_NOTE+' Reusing one key across different write kinds is not exercised.'),
 'C10':dict(engine='gosched',level='model_checking',technique=E1_TECH+'; exact-inverse / once-only / no-overdraft oracle',design='§7-C10',
   text='Racing reverts of the same transaction (2-3, forced/unforced, crash + retry), reverts of different transactions sharing an account, revert racing a spend or a metadata write: at most one REVERTED entry per target and at most one success, postings are the exact inverse with the revert marker, and an unforced revert never overdraws in log-order replay.',
   note=E1_NOTE+' The "balances restored when nothing else touched them" clause is covered by the exact-inverse check.'),
 'C11':dict(engine='gosched',level='model_checking',technique=E1_TECH+' incl. crash-and-retry; at-most-one-commit-per-reference oracle',design='§7-C11',
   text='2-3 creates sharing a reference, competitor succeeding or failing, distinct references as control, crash + retries: at most one committed transaction carries the reference, every other attempt reports an error (conflict, or its own insufficient funds) and leaves no entry.',
   note=E1_NOTE),
 'C15':dict(engine='gosched',level='model_checking',technique=E1_TECH+' on DefaultLocker; exclusion / deadlock / leftover-probe oracle',design='§7-C15',
   text='Every multiset of 3 lock requests over 6 read/write shapes on accounts {a,b} (56 populations), each also with one cancellable request cancelled at any time (select tie-breaks are explorer choices); 4-request populations in thorough: no conflicting overlap when Lock returns, no deadlock, and after everything finished a fresh W(a,b) request is granted at once (nothing left behind by a cancelled request).',
   note='Only the locker and the linked list are in the closed system; contexts are cancelled from a scheduled thread.'),
 'C16':dict(engine='gosched',level='model_checking',technique=E1_TECH+'; events recorded through the real ledger monitor with the persisted-log count at publish time',design='§7-C16',
   text='Every write kind, real / preview / replayed through an idempotency key, concurrent, with crashes: every published message decodes to a log entry already persisted at publish time with the same content (for a revert: which transaction was reverted and which reverts it), and every acknowledged write has at least one message (crash executions exempt).',
   note=E1_NOTE),
})
claimed['C20']=dict(engine='sqlskeleton',level='exploration',technique='exhaustive enumeration of filter keys x operators x wrappers x options x hostile strings against the real query builders over a recording SQL driver; PostgreSQL-lexer token-skeleton comparison',design='§7-C20',
   text='Every list/count method of the store (accounts, transactions, aggregated balances, logs) x every accepted key and operator x $and/$or/$not wrappers x PIT / volumes options, called directly and through the v2 (JSON body) and v1 (query parameter) handlers, x address shapes x 40 hostile strings: the request is rejected, or the SQL text sent has exactly the token skeleton of the same request with a harmless value of the same shape (the client text stays inside one literal).',
   note='bun renders arguments client-side (pgdialect quoting); the lexer models standard_conforming_strings=on; contents of jsonb/jsonpath literals are not interpreted.')
claimed['C17']=dict(engine='cursorwalk',level='model_checking',technique='explicit exploration of the cursor-token graph of the real pagination library over an in-memory SQL table (all collection sizes x page sizes x orders x filters); exhaustive token round trips for every filter expression to depth 2',design='§7-C17',
   text='bunpaginate.UsingColumn / UsingOffset are walked over collections of 0..8 items (ids dense and with gaps) x page sizes 1..9 x both orders x with/without a filter: following next until hasMore=false yields the (filtered) collection exactly once in order, previous of page k+1 yields page k, every token decodes to the same query. For the store listings (transactions, accounts, logs) every filter expression to depth 2 over the accepted keys, PIT on/off: the cursor the server hands out decodes and issues exactly the same SQL, directly and through GET ?cursor=.',
   note='minidb (a 150-line SQL subset executor) stands in for PostgreSQL for the single-table queries of the library walk; store listings are compared by emitted SQL text, not executed (no PostgreSQL in the sandbox).')
claimed['C04']=dict(engine='pgmini',level='model_checking',technique='explicit-state breadth-first exploration of log histories, executing the working tree\'s SQL schema (PL/pgSQL triggers) and the Go store\'s SQL in an interpreter; every state compared with an independent fold of the log',design='§7-C04, §5',
   text='Every history of <=4 (thorough 5) log entries over 16 shapes (transactions with past / future / offset timestamps, self-transfers, multi-posting, reverts, metadata set/delete on accounts and transactions, script-written account metadata) on two ledgers sharing one bucket is inserted through the real Store.InsertLogs into pgmini, which interprets 0-init-schema.sql as it is in the working tree; in every state the moves / transactions tables (running and effective-dated volumes, conservation, effective dates, reverted_at) and the Go read methods (balance, transaction, by reference, last transaction / log, logs listing, account metadata, counts, v1-style listings) equal a fold of that ledger\'s own log; plus every read method x option combination is checked for a ledger predicate.',
   note='Decided relative to pgmini\'s reading of PostgreSQL 15 semantics (no PostgreSQL server exists in the sandbox; validated_against_postgresql=0). The point-in-time / volumes variants of the list endpoints (LATERAL, CTE, DISTINCT ON, GROUP BY) are NOT executed: for them only the isolation (ledger predicate) clause is decided. Real transaction isolation, jsonb storage normalisation and v1 migrations are out of scope.')
order=[p['id'] for p in props]
checks=[]
for pid in order:
    if pid not in claimed: continue
    c=claimed[pid]
    checks.append({
      "property_id":pid,
      "quick_cmd":f"./check {pid} quick",
      "thorough_cmd":f"./check {pid} thorough",
      "evidence_file":f"/verif/evidence/{pid}.json",
      "replay_cmd_template":"./check replay {path}",
      "engine":c['engine'],
      "level_claimed":{"category":c['level'],"text":c['text'],"design_ref":c['design']},
      "level_note":c['note'],
      "technique":c['technique'],
    })
NA_REASONS={}
na=[{"property_id":p,"reason":NA_REASONS.get(p,"check not built yet in this session (work in progress; see DESIGN.md §11 build order)")} for p in order if p not in claimed]
m={"version":1,"setup_cmd":"./setup.sh",
 "hooks":{"guard":"verif","enable":"no source hooks in /repo: instrumentation is injected at build time with go build -overlay (generated from the current /repo files by /verif/engine/instr; added files carry //go:build verif)","baseline_off_cmd":json.load(open('/root/.vp/BASELINE.json'))['cmd'],"source_commits":[],"add_only":True},
 "engines":[
  {"name":"nsgen","path":"/verif/xverif/lib/nsgen","serves_properties":["C01","C03","C08","C12"],"kind_free_text":"bounded-exhaustive Numscript program/input enumerator + reference semantics, run against the real compiler and VM"},
  {"name":"gosched","path":"/verif/engine/verifrt + /verif/xverif/cmd/instr + /verif/xverif/lib/explore + /verif/xverif/cmd/vsched","serves_properties":["C02","C05","C06","C07","C10","C11","C15","C16"],"kind_free_text":"controlled cooperative scheduler (verifrt) + source instrumenter + stateless DFS explorer with deviation bounding, sharded over worker processes; runs the real Commander / locker / batcher / job runner"},
  {"name":"pgmini","path":"/verif/xverif/lib/pgmini","serves_properties":["C04"],"kind_free_text":"interpreter for the SQL / PL-pgSQL subset of the bucket schema with a database/sql driver; the real ledgerstore.Store runs on top of it"},
  {"name":"vcheck","path":"/verif/xverif/cmd/vcheck","serves_properties":["C09","C13","C14","C17","C18","C19","C20"],"kind_free_text":"small exhaustive enumerators driving the real Commander / routers / codecs (memstore, recording backend)"},
 ],
 "checks":checks,"not_applicable":na,
 "notes":"See DESIGN.md. All deciding steps are complete enumerations of explicitly bounded spaces run on the repository's code rebuilt from /repo's working tree. Genuine defects found are repaired by 'fix:' commits in /repo and listed as fixed in known_findings.json."}
json.dump(m,open('/verif/MANIFEST.json','w'),indent=1)
print('claimed',len(checks),'na',len(na))
