#!/opt/veriftools/pyvenv/bin/python
import json,jsonschema,sys,glob
jsonschema.validate(json.load(open('/verif/MANIFEST.json')),json.load(open('/root/.vp/MANIFEST.schema.json')))
m=json.load(open('/verif/MANIFEST.json'))
props=[json.loads(l)['id'] for l in open('/verif/properties.jsonl')]
claimed=[c['property_id'] for c in m['checks']]
na=[c['property_id'] for c in m.get('not_applicable',[])]
assert sorted(claimed+na)==sorted(props),(claimed,na)
for c in m['checks']:
    try:
        e=json.load(open(c['evidence_file']))
        jsonschema.validate(e,json.load(open('/root/.vp/EVIDENCE.schema.json')))
        assert e['level']==c['level_claimed']['category'] or e['level']=='other',(c['property_id'],e['level'])
    except FileNotFoundError:
        print('missing evidence',c['property_id'])
print('valid; claimed',len(claimed),'n/a',len(na))
