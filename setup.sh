#!/bin/bash
# setup_cmd: offline; pre-warms the Go build cache for the harness binaries (plain and instrumented)
set -u
cd /verif
export GOFLAGS=-mod=mod GOPROXY=off GOSUMDB=off GOTOOLCHAIN=local
mkdir -p .work evidence replays
cp /repo/go.sum xverif/go.sum
./engine/mkoverlay.sh plain > .work/overlay-plain.json
(cd xverif && go build -tags verif -overlay /verif/.work/overlay-plain.json -o /verif/.work/vcheck ./cmd/vcheck) || exit 1
if [ -x ./engine/run_sched.sh ]; then ./engine/run_sched.sh build || exit 1; fi
echo setup ok
